#!/bin/bash
# tools/thorough_new.sh : thorough tier of the sub-checks added in round 7 first, then whole checks (development aid;
# evidence goes to a scratch dir).  One line per run; details of any non-zero exit follow it.
export VP_EVIDENCE_DIR=${VP_EVIDENCE_DIR:-/tmp/vp-soak-evidence}; mkdir -p "$VP_EVIDENCE_DIR"
run() { P=$1; shift; t0=$(date +%s); OUT=$(./check $P --tier thorough "$@" 2>&1); rc=$?; t1=$(date +%s); echo "$P $* rc=$rc $((t1-t0))s $(echo "$OUT" | tail -1 | cut -c1-140)"; [ $rc -ne 0 ] && echo "$OUT" | grep -E -A4 "^VIOLATION|HARNESS" | cut -c1-300 | head -30; }
run C03 --sub retained --sub interleaved
run C04 --sub history --sub history_words --sub rt_small --sub words_emb
run C05 --sub interleaved
run C06 --sub cross_code
run C07 --sub consecutive
run C08 --sub raising_observers --sub machine
run C10 --sub interleaved
run C11 --sub interleaved
run C12 --sub rcp --sub histories
run C13 --sub decode --sub interleaved
run C14 --sub histories
run C15 --sub batches
run C16 --sub retained
run C17 --sub related_value_histories --sub random_histories
run C18 --sub interleaved_runs --sub random_histories
run C19 --sub related
run C09 --sub after_sibling_calls
for P in C06 C20 C10 C11 C09 C13 C18 C16 C12 C17 C07 C04 C14 C19 C05 C15 C08 C03; do run $P; done
