#!/usr/bin/env python3
"""Prints the prompt for an independent 'benign change' agent: a realistic change that does NOT break the property.
Used to hunt false alarms of the checks (a check must stay quiet on code where the property holds)."""
import json, sys
pid, wt = sys.argv[1], sys.argv[2]
p = [json.loads(l) for l in open('/verif/properties.jsonl') if json.loads(l)['id'] == pid][0]
print(f"""You are given a scratch git worktree of the Python library OK-DMR/ok-dmrlib (pure-Python DMR / ETSI TS 102 361 library) at {wt} (detached HEAD; work ONLY inside this directory; never touch /repo or /verif and do not read anything under /verif).

Run the library and its tests from the worktree like this (PYTHONPATH makes Python import the worktree's code, not the installed copy):
  cd {wt} && PYTHONPATH={wt} /venv/bin/python -m pytest -q -p no:cacheprovider --timeout=900
(204 tests pass on the unmodified worktree in a few seconds; confirm `PYTHONPATH={wt} /venv/bin/python -c "import okdmr.dmrlib; print(okdmr.dmrlib.__path__)"` shows the worktree.)

Here is a semantic property of this library that holds today for every input / history:

  id: {p['id']}
  title: {p['title']}
  statement: {p['statement']}
  quantifier: {p['quantifier']['text']}
  code it is anchored in: {', '.join(p['anchors']['files'])}
  mechanisms: {'; '.join(m['name'] + ' (' + m.get('where','') + ')' for m in p['anchors']['mechanism'])}

Your task is the OPPOSITE of bug seeding: produce a substantial, realistic set of maintainer-style changes to the library's SOURCE (not its tests), concentrated in the code this property is anchored in, after which the property STILL HOLDS exactly as stated, the public behaviour the statement talks about is unchanged, and the existing test suite (all 204 tests, unedited) still passes.  The purpose is to find out whether an automated checker of this property raises FALSE ALARMS on correct code, so make the changes the kind that could trip a brittle checker while being perfectly legitimate.  Apply SEVERAL of the following in one patch (aim for 5-10 distinct edits, 60-300 changed lines):
  * refactor for readability / performance: split or merge functions, replace loops by comprehensions or vice versa, replace numpy operations by pure Python (or the reverse) with identical results, precompute tables lazily instead of at import (or the reverse), hoist constants;
  * rename or restructure INTERNALS that are not part of the documented behaviour: private helpers, local variables, module-level helper tables, class-level helper attributes / singletons (e.g. turn a class attribute into a property or a lazily created object, rename it, move it to another module with an alias where other library code needs it), change how module-level state is imported (e.g. `import x` -> `from x import y`);
  * change internal data representations (e.g. keep an int instead of a bitarray internally, a tuple instead of a list, a dict instead of parallel lists) while every public method returns equal values (an equal value of a compatible type is fine where the old type was incidental, e.g. list vs tuple, numpy bool vs bool, numpy array vs list ONLY if the existing tests still pass);
  * add correct caching / memoisation that is safe (keys capture all inputs incl. lengths, cached values are immutable or copied on the way out);
  * add new optional parameters with defaults that keep old behaviour, new helper methods, new public attributes that do not alter existing ones (e.g. a `raw`/`source_bytes` attribute kept only on parsed objects, a creation counter, a debug name), __slots__ where safe, dataclass-style __eq__/__repr__ improvements;
  * change log / print output and exception MESSAGES (not exception types for documented rejections), add input validation that only rejects inputs OUTSIDE the property's stated domain;
  * reorder independent statements, reorder dict / enum definitions where order is not observable through the behaviour the property talks about.
Do NOT change anything the statement itself fixes (wire formats, returned values for in-domain inputs, which inputs are accepted / rejected inside the stated domain, exception types for documented rejections, event order, etc.).  Be careful: the result must be CORRECT - you must convince yourself, by your own checking program, that the property still holds after your change.

Deliverables, all inside {wt}/seed_out/ (create it):
  1. patch.diff - `git diff` of your source changes (relative to the worktree root; must apply with `git apply` to a clean checkout of the same commit).
  2. demo.py - a standalone program that checks the property itself through the public API on a meaningful sample (round trips / comparison with independently computed values / model comparison as appropriate) and exits 0 both WITH your change and WITHOUT it (on the clean commit).
  3. meta.json - {{"property": "{p['id']}", "kind": "benign", "summary": "<what you changed, one line per edit>", "why_property_still_holds": "<short argument>", "files_changed": [...], "commands_run": ["..."], "tests_pass_with_change": true}}

Verify everything yourself before finishing: (a) with the change applied the full test suite passes (204 passed); (b) demo passes with the change; (c) revert with `git apply -R seed_out/patch.diff` (do NOT use `git stash`: it is shared between worktrees) -> demo passes; re-apply with `git apply seed_out/patch.diff` so the worktree ends in the changed state, with seed_out/ present.  Do not commit.  Keep every message you write short (well under 2000 words; write long data to files).  In your final message list the edits briefly and the exact commands you ran with their outcomes.""")
