#!/bin/bash
# tools/seed_done.sh <PROP> <N> : verify + record + clean one seeded change
P="$1"; N="$2"; ID="$P-$N"
tools/verify_seed.sh $P /tmp/seed-$ID $ID 2>&1 | grep -E "tests with|demo with|check C|REJECT|subcheck|APPLY|no patch|no demo" | head -8
tools/seed_meta.py $ID
git -C /repo worktree remove --force /tmp/seed-$ID 2>/dev/null
rm -rf /tmp/verify-seed-$ID
