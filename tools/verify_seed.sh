#!/bin/bash
# tools/verify_seed.sh <PROP> <worktree> <seed-id>
# Confirms an independently produced "seeded change" (worktree/seed_out/{patch.diff,demo*.py,meta.json}):
#   1. patch applies to a clean checkout of /repo HEAD, 2. the repository's 204 tests pass with it,
#   3. the demonstration fails with it and passes without it; then stores it as /verif/seeded/<seed-id>/ and
#   4. runs the property's quick (and, if that misses, thorough) check against the changed tree (VP_REPO=scratch copy).
set -u
PROP="$1"; WT="$2"; ID="$3"
OUT="$WT/seed_out"
[ -f "$OUT/patch.diff" ] || { echo "no patch.diff in $OUT"; exit 2; }
DEMO=$(ls "$OUT"/demo*.py 2>/dev/null | head -1)
[ -n "$DEMO" ] || { echo "no demo in $OUT"; exit 2; }
S=/tmp/verify-seed-$ID
rm -rf "$S"; mkdir -p "$S/clean" "$S/changed"
git -C /repo archive HEAD | tar -x -C "$S/clean"
git -C /repo archive HEAD | tar -x -C "$S/changed"
( cd "$S/changed" && git apply --unsafe-paths --directory="$S/changed" "$OUT/patch.diff" 2>/dev/null || patch -p1 -s < "$OUT/patch.diff" ) || { echo "PATCH DOES NOT APPLY"; exit 2; }
rundemo() { # $1 = tree
  case "$DEMO" in
    *test*.py) ( cd "$1" && PYTHONPATH="$1" timeout 600 /venv/bin/python -m pytest -q -p no:cacheprovider "$DEMO" >"$S/demo.$2.log" 2>&1 );;
    *) ( cd "$1" && PYTHONPATH="$1" timeout 600 /venv/bin/python "$DEMO" >"$S/demo.$2.log" 2>&1 );;
  esac
}
( cd "$S/changed" && PYTHONPATH="$S/changed" /venv/bin/python -m pytest -q -p no:cacheprovider --timeout=900 okdmr/tests > "$S/tests.log" 2>&1 ); T=$?
echo "tests with change: exit $T  $(tail -1 "$S/tests.log")"
rundemo "$S/changed" changed; DC=$?
rundemo "$S/clean" clean; DK=$?
echo "demo with change: exit $DC (want != 0); demo on clean tree: exit $DK (want 0)"
if [ $T -ne 0 ] || [ $DC -eq 0 ] || [ $DK -ne 0 ]; then echo "SEED REJECTED"; exit 3; fi
mkdir -p /verif/seeded/$ID
cp "$OUT/patch.diff" /verif/seeded/$ID/patch.diff
cp "$DEMO" /verif/seeded/$ID/
[ -f "$OUT/meta.json" ] && cp "$OUT/meta.json" /verif/seeded/$ID/meta.agent.json
cd /verif
for tier in ${VERIFY_TIERS:-quick thorough}; do
  t0=$(date +%s)
  VP_REPO="$S/changed" ./check "$PROP" --tier $tier > "$S/check.$tier.log" 2>&1; RC=$?
  t1=$(date +%s)
  echo "check $PROP --tier $tier on changed tree: exit $RC in $((t1-t0))s; $(grep -c '^VIOLATION' "$S/check.$tier.log") VIOLATION lines"
  grep -A4 '^VIOLATION' "$S/check.$tier.log" | head -12
  echo "$tier rc=$RC secs=$((t1-t0))" >> /verif/seeded/$ID/check_result.txt
  grep -A4 '^VIOLATION' "$S/check.$tier.log" | head -12 >> /verif/seeded/$ID/check_result.txt
  [ $RC -eq 1 ] && break
done
echo "scratch left in $S (remove when done)"
