#!/bin/bash
# tools/benign3_done.sh Cxx : verify a finished round-B3 benign worktree (/tmp/benign3-Cxx), record it as benign/Cxx-B3 with the
# result of the property's own quick check, remove the worktree.  The cross matrix is run later (tools/benign_matrix.py Cxx-B3).
P=$1
/verif/tools/verify_benign.sh $P /tmp/benign3-$P $P-B3 2>&1 | grep -E "tests with|demo with|check C|REJECT|APPLY|no patch|VIOLATION|HARNESS|subcheck" | cut -c1-220 | head -12
rm -rf /tmp/verify-benign-$P-B3
git -C /repo worktree remove --force /tmp/benign3-$P 2>/dev/null
