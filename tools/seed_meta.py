#!/usr/bin/env python3
"""tools/seed_meta.py <seed-id> : writes seeded/<id>/meta.json from the agent's meta + my verification results."""
import json, os, sys, re
sid = sys.argv[1]
d = f"/verif/seeded/{sid}"
a = {}
p = os.path.join(d, "meta.agent.json")
if os.path.exists(p):
    try:
        a = json.load(open(p))
    except Exception as e:
        a = {"summary": open(p).read()[:2000]}
res = open(os.path.join(d, "check_result.txt")).read() if os.path.exists(os.path.join(d, "check_result.txt")) else ""
tiers = re.findall(r"^(quick|thorough) rc=(\d+) secs=(\d+)", res, re.M)
caught = [t for t, rc, s in tiers if rc == "1"]
first = (re.findall(r"subcheck=\S+ clause=\S+", res) or [""])[0]
prop = sid.split("-")[0]
meta = {
    "id": sid,
    "property": prop,
    "summary": a.get("summary", ""),
    "needs_to_manifest": a.get("needs", ""),
    "files_changed": a.get("files_changed", []),
    "produced_by": "independent sub-agent given only the property text and a scratch git worktree of /repo (tools/seed_prompt.py)",
    "confirmed_by_me": [
        "patch.diff applies to a clean export of /repo HEAD",
        "repository test suite (204 tests) passes with the change applied",
        "demonstration fails with the change and passes on the clean tree",
    ],
    "commands_run": [
        f"tools/verify_seed.sh {prop} <worktree> {sid}   (applies patch to an export of /repo HEAD; PYTHONPATH=<copy> /venv/bin/python -m pytest okdmr/tests; runs the demo on changed and clean copies; VP_REPO=<changed copy> ./check {prop} --tier quick [then thorough])"
    ],
    "check_results": [{"tier": t, "exit": int(rc), "wall_s": int(s)} for t, rc, s in tiers],
    "detected_by": (f"./check {prop} --tier {caught[0]}  ({first})" if caught else "NOT DETECTED"),
}
json.dump(meta, open(os.path.join(d, "meta.json"), "w"), indent=1)
print(sid, meta["detected_by"])
