#!/usr/bin/env python3
"""Fills the SEEDTABLE / regenerates the seeded-changes table of DESIGN.md section 10 from seeded/*/meta.json."""
import glob, json, os, re
rows = []
for p in sorted(glob.glob('/verif/seeded/*/meta.json')):
    m = json.load(open(p))
    def short(t, n):
        t = " ".join(str(t).split()).replace("|", "/")
        return t if len(t) <= n else t[: n - 1] + "…"
    rows.append(f"| {m['id']} | {short(m['summary'], 230)} | {short(m['needs_to_manifest'], 200)} | {short(m['detected_by'], 120)} |")
table = "\n".join(rows)
s = open('/verif/DESIGN.md').read()
if "SEEDTABLE" in s:
    s = s.replace("SEEDTABLE", "<!-- seedtable:begin -->\n" + table + "\n<!-- seedtable:end -->")
else:
    s = re.sub(r"<!-- seedtable:begin -->.*?<!-- seedtable:end -->", lambda _: "<!-- seedtable:begin -->\n" + table + "\n<!-- seedtable:end -->", s, flags=re.S)
open('/verif/DESIGN.md', 'w').write(s)
print(len(rows), "rows")
