#!/usr/bin/env python3
"""Regenerates /verif/MANIFEST.json from the table below (keeps the manifest valid and consistent)."""
import json, os, sys

HERE = os.path.dirname(os.path.dirname(os.path.abspath(__file__)))

# property -> (level category, technique, level text, level note)
CHECKS = {k: (v["category"], v["technique"], v["text"], v["note"]) for k, v in json.load(open(os.path.join(HERE, "tools", "checks.json"))).items()}

NOT_YET = "check not built yet in this revision of /verif (planned, see DESIGN.md section 4)"


def main():
    props = [json.loads(l)["id"] for l in open(os.path.join(HERE, "properties.jsonl"))]
    checks = []
    for pid in props:
        if pid not in CHECKS:
            continue
        cat, tech, text, note = CHECKS[pid]
        checks.append(
            {
                "property_id": pid,
                "quick_cmd": f"./check {pid} --tier quick",
                "thorough_cmd": f"./check {pid} --tier thorough",
                "evidence_file": f"/verif/evidence/{pid}.json",
                "replay_cmd_template": f"./check {pid} --replay {{path}}",
                "engine": "vp",
                "level_claimed": {"category": cat, "text": text, "design_ref": f"DESIGN.md section 4, {pid}"},
                "level_note": note,
                "technique": tech,
            }
        )
    man = {
        "version": 1,
        "setup_cmd": "bash setup.sh",
        "hooks": {
            "guard": "OKDMR_VERIF",
            "enable": "no source hooks exist: checks import /repo's working tree directly (PYTHONPATH) and instrument at run time from the harness; ./check exports OKDMR_VERIF=1 for completeness",
            "baseline_off_cmd": "cd /repo && /venv/bin/python -m pytest -ra -q -p no:cacheprovider --timeout=900 --continue-on-collection-errors",
            "source_commits": [],
            "add_only": True,
        },
        "engines": [
            {
                "name": "vp",
                "path": "/verif/vp",
                "serves_properties": [c["property_id"] for c in checks],
                "kind_free_text": "property-based testing / fuzzing harness: Hypothesis strategies and stateful machines, complete enumeration of finite domains, fork-sharded over 16 cores, independent reference oracles in vp/refs, known-findings matcher, shrunk replay files",
            }
        ],
        "checks": checks,
        "notes": "All checks run /repo's current working tree in-process (no build step). Exit 0 = held (KNOWN-FINDING lines allowed), 1 = VIOLATION line(s) with replay file, 2 = harness error. Known findings: /verif/known_findings.json.",
        "not_applicable": [{"property_id": p, "reason": NOT_YET} for p in props if p not in CHECKS],
    }
    with open(os.path.join(HERE, "MANIFEST.json"), "w") as fh:
        json.dump(man, fh, indent=1)
        fh.write("\n")


if __name__ == "__main__":
    main()
