#!/usr/bin/env python3
"""Regenerates /verif/MANIFEST.json from the table below (keeps the manifest valid and consistent)."""
import json, os, sys

HERE = os.path.dirname(os.path.dirname(os.path.abspath(__file__)))

# property -> (level category, technique, level text, level note)
CHECKS = {
    "C06": (
        "fault_enumeration",
        "complete enumeration of all messages / received words / error patterns against an independent cyclic-code reference (generated-input search with generator = whole finite domain), sharded over 16 processes",
        "Exhaustive: every k-bit message, every n-bit word, every pair of codewords and every single (and for (16,11,4) double) error pattern of all seven block codes is executed through the library and compared with a table-free reference; within the stated finite domain this settles the property.",
        "Trusts bitarray/numpy and the reference cyclic encoders in vp/refs/gf2.py (generator polynomials from coding theory, cross-checked against the ETSI matrices only through this comparison).",
    ),
    "C02": (
        "fault_enumeration",
        "complete enumeration of all 19306 error patterns of weight <= 2 on sampled codewords + Hypothesis search (round trip, reference encoder, GF(2)-linearity)",
        "Every single and double inversion of the 196 transmitted bits is injected into zero/unit/random codewords and decoded with repair; encoder compared with an independent product-code reference; messages are sampled, faults are complete per codeword (linearity of the code, itself checked on random pairs, carries the result to other codewords).",
        "Trusts the reference encoder vp/refs/bptc_ref.py (ETSI B.1.1 written from the mathematics) and bitarray/numpy; 2^96 messages are sampled, not enumerated.",
    ),
    "C20": (
        "exploration",
        "model-based testing: complete enumeration of all operation sequences up to a bounded length over a reduced alphabet + Hypothesis RuleBasedStateMachine histories, reference model compared with the full observable state after every step",
        "Every history explored is compared step by step with a list-of-records reference model over the complete observable state (len, all(), ids, object identity, every field and dynamic attribute of every record); short histories are covered completely (length 5 quick / 6 thorough over 14 concrete ops), longer ones by seeded random search.",
        "Bounded exhaustive length and a finite pool of addresses/keys/values; caller errors the code documents (patching id / method names, foreign repeaters) are outside the domain.",
    ),
}

NOT_YET = "check not built yet in this revision of /verif (planned, see DESIGN.md section 4)"


def main():
    props = [json.loads(l)["id"] for l in open(os.path.join(HERE, "properties.jsonl"))]
    checks = []
    for pid in props:
        if pid not in CHECKS:
            continue
        cat, tech, text, note = CHECKS[pid]
        checks.append(
            {
                "property_id": pid,
                "quick_cmd": f"./check {pid} --tier quick",
                "thorough_cmd": f"./check {pid} --tier thorough",
                "evidence_file": f"/verif/evidence/{pid}.json",
                "replay_cmd_template": f"./check {pid} --replay {{path}}",
                "engine": "vp",
                "level_claimed": {"category": cat, "text": text, "design_ref": f"DESIGN.md section 4, {pid}"},
                "level_note": note,
                "technique": tech,
            }
        )
    man = {
        "version": 1,
        "setup_cmd": "bash setup.sh",
        "hooks": {
            "guard": "OKDMR_VERIF",
            "enable": "no source hooks exist: checks import /repo's working tree directly (PYTHONPATH) and instrument at run time from the harness; ./check exports OKDMR_VERIF=1 for completeness",
            "baseline_off_cmd": "cd /repo && /venv/bin/python -m pytest -ra -q -p no:cacheprovider --timeout=900 --continue-on-collection-errors",
            "source_commits": [],
            "add_only": True,
        },
        "engines": [
            {
                "name": "vp",
                "path": "/verif/vp",
                "serves_properties": [c["property_id"] for c in checks],
                "kind_free_text": "property-based testing / fuzzing harness: Hypothesis strategies and stateful machines, complete enumeration of finite domains, fork-sharded over 16 cores, independent reference oracles in vp/refs, known-findings matcher, shrunk replay files",
            }
        ],
        "checks": checks,
        "notes": "All checks run /repo's current working tree in-process (no build step). Exit 0 = held (KNOWN-FINDING lines allowed), 1 = VIOLATION line(s) with replay file, 2 = harness error. Known findings: /verif/known_findings.json.",
        "not_applicable": [{"property_id": p, "reason": NOT_YET} for p in props if p not in CHECKS],
    }
    with open(os.path.join(HERE, "MANIFEST.json"), "w") as fh:
        json.dump(man, fh, indent=1)
        fh.write("\n")


if __name__ == "__main__":
    main()
