#!/bin/bash
# tools/apply_fix.sh <patch.diff> <message-file> : apply a reviewed fix to /repo, run the unedited test suite, commit.
set -e
D="$(realpath "$1")"; M="$(realpath "$2")"
cd /repo
[ -z "$(git status --porcelain)" ] || { echo "/repo not clean"; git status --short; exit 2; }
git apply "$D"
if git status --porcelain | grep -q 'okdmr/tests'; then echo "patch touches tests - refusing"; git checkout -- .; exit 2; fi
R=$(/venv/bin/python -m pytest -q -p no:cacheprovider --timeout=900 2>&1 | tail -1)
echo "$R"
case "$R" in *"204 passed"*) ;; *) echo "tests not green - reverting"; git checkout -- .; exit 3;; esac
head -1 "$M" | grep -q '^fix: ' || { echo "message must start with fix:"; git checkout -- .; exit 2; }
git commit -qa -F "$M"
git log --oneline | head -1
